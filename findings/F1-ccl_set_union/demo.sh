#!/bin/sh
# demo.sh TREE : [^a]{+}[b] must match every character except 'a' (union of a negated class with [b]).
T="$1"; D=$(mktemp -d); cd "$(dirname "$0")"
timeout 20 "$T/src/flex" -o $D/u.c union.l || exit 2
gcc -w -o $D/u $D/u.c || exit 2
OUT=$(printf 'xab' | timeout 5 $D/u)
rm -rf $D
echo "got: $OUT"
[ "$OUT" = "U<x>D<a>U<b>" ]
