#!/bin/sh
# demo.sh [REPO]: a batch (-B / %option batch) scanner with compressed tables meets a NUL
# byte that cannot extend the current match: input "ab\0x", rules ab | abc | .
# expected tokens: ab (2 bytes), NUL (1), x (1).  Exit 1 if the scanner reports anything else.
R=${1:-/repo}; D=$(mktemp -d); trap 'rm -rf $D' EXIT
$R/src/flex -o $D/nul.c $(dirname $0)/nul.l && gcc -w -o $D/nul $D/nul.c || exit 2
OUT=$($D/nul)
echo "got: $OUT   expected: R1<2>D<1>D<1>"
[ "$OUT" = "R1<2>D<1>D<1>" ]
