#!/bin/sh
# demo.sh [REPO]: %option yylineno, one rule (?s:.) - it matches newlines, so after scanning
# "a\n\nb\n" yylineno must be 4.  Exit 1 otherwise.
R=${1:-/repo}; D=$(mktemp -d); trap 'rm -rf $D' EXIT
$R/src/flex -o $D/dot.c $(dirname $0)/dot.l && gcc -w -o $D/dot $D/dot.c || exit 2
OUT=$($D/dot); echo "$OUT"
[ "$OUT" = "yylineno=4 (expected 4)" ]
