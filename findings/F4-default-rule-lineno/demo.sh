#!/bin/sh
# demo.sh [REPO]: %option yylineno, the only rule is `a`: the newlines of "a\n\nb\n" are consumed
# by the default rule, so yylineno must be 4 at the end.  Exit 1 otherwise.
R=${1:-/repo}; D=$(mktemp -d); trap 'rm -rf $D' EXIT
$R/src/flex -o $D/dflt.c $(dirname $0)/dflt.l && gcc -w -o $D/dflt $D/dflt.c || exit 2
OUT=$($D/dflt); echo "$OUT"
[ "$OUT" = "yylineno=4 (expected 4)" ]
