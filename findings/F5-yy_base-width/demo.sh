#!/bin/sh
# demo.sh [REPO]: flex -C on a rule set whose packed table is longer than 32767 cells while it has
# fewer than 32767 states: every yy_base value must fit the element type flex declares for yy_base.
# Exit 1 if the emitted scanner declares a 16-bit yy_base holding a value above 32767.
R=${1:-/repo}; D=$(mktemp -d); trap 'rm -rf $D' EXIT
python3 $(dirname $0)/gen_spec.py > $D/big.l
$R/src/flex -C -o $D/big.c $D/big.l || exit 2
python3 - $D/big.c <<'PY'
import re,sys
t=open(sys.argv[1]).read()
m=re.search(r"static const (flex_int(16|32)_t) yy_base\[(\d+)\] =\s*\{(.*?)\};", t, re.S)
ty, bits, n, body = m.group(1), int(m.group(2)), int(m.group(3)), m.group(4)
vals=[int(x) for x in re.findall(r"-?\d+", body)]
print("yy_base: %s[%s], largest value %d" % (ty, n, max(vals)))
sys.exit(1 if bits == 16 and max(vals) > 32767 else 0)
PY
