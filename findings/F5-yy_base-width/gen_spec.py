#!/usr/bin/env python3
# deterministic: 2700 distinct keywords over [a-d]{8} + the fall-back [a-d]+
import random
random.seed(12345)
kw = set()
while len(kw) < 2700:
    kw.add("".join(random.choice("abcd") for _ in range(8)))
print("%option noyywrap\n%%")
for k in sorted(kw):
    print('%s\t{ return 1; }' % k)
print("[a-d]+\t{ return 2; }\n.|\\n\t{ return 3; }\n%%")
