#!/bin/sh
# demo.sh [REPO]: a spec with one user-code line longer than the 4096-byte buffer of the
# line-fixing filter.  Every directive `#line N "out.c"` flex writes must sit on line N-1 of out.c.
# Exit 1 if one does not.
R=${1:-/repo}; D=$(mktemp -d); trap 'rm -rf $D' EXIT
python3 - > $D/long.l <<'PY'
print("%option noyywrap\n%{")
print("/* " + "x" * 5000 + " */")
print("%}\n%%\na\t{ return 1; }\n%%\nint main(void) { return yylex(); }")
PY
(cd $D && $R/src/flex -o out.c long.l) || exit 2
python3 - $D/out.c <<'PY'
import re,sys
bad=0; n=0
for i,l in enumerate(open(sys.argv[1]),1):
    m=re.match(r'#line (\d+) "out\.c"', l)
    if m:
        n+=1
        if int(m.group(1)) != i+1:
            bad+=1
            if bad<=3: print("line %d of out.c says: %s" % (i, l.strip()))
print("%d directives for out.c, %d wrong" % (n, bad))
sys.exit(1 if bad else 0)
PY
