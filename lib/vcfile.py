"""Parser for /verif/contracts/*.vc (contract blocks, units, harnesses).

Block syntax:  a line starting with '@<kind> args...' opens a block, a line
that is exactly '@end' closes it.  Lines starting with '##' outside blocks are
comments.  Block kinds:

  @group NAME engine=G src=ccl.c            (one per file, first block)
  @group NAME engine=S
  @unit ID                      key: value lines
  @contract FN [when=EXPR]      clauses; a trailing '// tag: NAME' on an
                                __CPROVER_ensures line names that obligation
  @loop FN ORD KW [total=N] [when=EXPR]
  @body FN ORD [when=]          first statement(s) of the loop body
  @entry FN [when=]
  @before FN "anchor" [when=]   / @after FN "anchor"
  @top [when=]                  text for the top of the file
  @decls "global anchor" [when=]  text after the line containing anchor
  @harness NAME [when=]
  @rewrite COUNT [when=]        line 1: regex, line 2: replacement
"""
import re
import shlex


class VCError(Exception):
    pass


class Block:
    def __init__(self, kind, args, opts, text, path, line):
        self.kind, self.args, self.opts, self.text = kind, args, opts, text
        self.path, self.line = path, line

    def __repr__(self):
        return "<%s %s %s>" % (self.kind, self.args, self.opts)


def parse(path):
    blocks = []
    cur = None
    with open(path) as f:
        for ln, raw in enumerate(f, 1):
            line = raw.rstrip("\n")
            if cur is None:
                if line.startswith("@"):
                    parts = shlex.split(line[1:])
                    kind = parts[0]
                    args, opts = [], {}
                    for p in parts[1:]:
                        m = re.match(r"^(\w+)=(.*)$", p)
                        if m and m.group(1) in ("when", "total", "engine", "src"):
                            opts[m.group(1)] = m.group(2)
                        else:
                            args.append(p)
                    cur = Block(kind, args, opts, [], path, ln)
                    if kind in ("group", "include"):
                        cur.text = ""
                        blocks.append(cur)
                        cur = None
                elif line.strip() == "" or line.startswith("##"):
                    continue
                else:
                    raise VCError("%s:%d: text outside block: %r" % (path, ln, line))
            else:
                if line.strip() == "@end":
                    cur.text = "\n".join(cur.text)
                    blocks.append(cur)
                    cur = None
                else:
                    cur.text.append(line)
    if cur is not None:
        raise VCError("%s: unterminated block starting line %d" % (path, cur.line))
    return blocks


def when_ok(expr, tags):
    """expr: comma = AND, '|' = OR inside a term, '!' = NOT.  tags: set."""
    if not expr:
        return True
    for term in expr.split(","):
        ok = False
        for alt in term.split("|"):
            alt = alt.strip()
            if alt.startswith("!"):
                if alt[1:] not in tags:
                    ok = True
            elif alt in tags:
                ok = True
        if not ok:
            return False
    return True


def unit_dict(block):
    d = {"id": block.args[0]}
    for l in block.text.split("\n"):
        if not l.strip() or l.strip().startswith("##"):
            continue
        m = re.match(r"^\s*([\w-]+)\s*:\s*(.*)$", l)
        if not m:
            raise VCError("%s: unit %s: bad line %r" % (block.path, d["id"], l))
        d[m.group(1)] = m.group(2).strip()
    return d


def ensures_tags(text):
    """Ordered list of tags of the __CPROVER_ensures clauses of a contract
    block (None where untagged).  Same for requires (for replaced callees)."""
    ens, req = [], []
    for l in text.split("\n"):
        s = l.strip()
        m = re.search(r"//\s*tag:\s*([\w.\-]+)", s)
        tag = m.group(1) if m else None
        if s.startswith("__CPROVER_ensures"):
            ens.append(tag)
        elif s.startswith("__CPROVER_requires"):
            req.append(tag)
    return ens, req
