#!/usr/bin/env python3
"""Driver: /verif/check <property|all> [--tier quick|thorough] ...

For the selected property it
  1. copies /repo's working tree to a scratch directory and rebuilds flex there,
  2. splices the contracts of /verif/contracts/*.vc into the real source files
     (engine G) or into scanners emitted by the rebuilt flex (engine S),
  3. runs goto-cc / goto-instrument --dfcc / cbmc on every unit (16 workers),
  4. reports failed obligations as VIOLATION (exit 1) unless listed in
     known_findings.tsv, undecided units as exit 2, and writes the evidence file.
"""
import argparse
import concurrent.futures as cf
import fnmatch
import glob
import hashlib
import json
import os
import re
import resource
import shutil
import subprocess
import sys
import time

HERE = os.path.dirname(os.path.abspath(__file__))
VERIF = os.path.dirname(HERE)
sys.path.insert(0, HERE)
import vsplice  # noqa: E402
import vcfile  # noqa: E402

REPO = os.environ.get("VP_REPO", "/repo")
SAFETY = ["--bounds-check", "--pointer-check", "--pointer-overflow-check",
          "--signed-overflow-check", "--div-by-zero-check", "--sat-solver", "cadical"]
MEM_BYTES = int(os.environ.get("VP_MEM_GB", "12")) * (1 << 30)
CFG_OPTS = {"nr": [], "r": ["-R"], "c99": ["--emit=c99"]}
CFG_TAGS = {"nr": {"nr", "cpp"}, "r": {"r", "cpp", "reent"}, "c99": {"c99", "reent"}}


def log(*a):
    print(*a, file=sys.stderr, flush=True)


def run(cmd, cwd=None, timeout=None, out=None, env=None, mem=True):
    """Run a command; returns (rc, stdout+stderr text) ; rc = 'timeout' on timeout."""
    def lim():
        if mem:
            resource.setrlimit(resource.RLIMIT_AS, (MEM_BYTES, MEM_BYTES))
        os.setsid()
    t0 = time.time()
    try:
        p = subprocess.Popen(cmd, cwd=cwd, stdout=subprocess.PIPE, stderr=subprocess.STDOUT,
                             preexec_fn=lim, env=env)
        try:
            o, _ = p.communicate(timeout=timeout)
        except subprocess.TimeoutExpired:
            try:
                os.killpg(p.pid, 9)
            except Exception:
                pass
            p.wait()
            return "timeout", "", time.time() - t0
        txt = o.decode("utf-8", "replace")
        if out:
            with open(out, "w") as f:
                f.write(txt)
        return p.returncode, txt, time.time() - t0
    except OSError as e:
        return "oserror", str(e), time.time() - t0


# --------------------------------------------------------------------------
# loading the contract files
# --------------------------------------------------------------------------
class Group:
    def __init__(self, name, engine, src, path):
        self.name, self.engine, self.src, self.path = name, engine, src, path
        self.blocks = []
        self.units = []


def load_groups():
    groups = {}
    for path in sorted(glob.glob(os.path.join(VERIF, "contracts", "*.vc"))):
        blocks = vcfile.parse(path)
        if not blocks or blocks[0].kind != "group":
            raise vcfile.VCError("%s: first block must be @group" % path)
        g0 = blocks[0]
        g = Group(g0.args[0], g0.opts.get("engine", "G"), g0.opts.get("src"), path)
        for b in blocks[1:]:
            if b.kind == "unit":
                u = vcfile.unit_dict(b)
                u["_group"] = g
                g.units.append(u)
            elif b.kind == "include":
                inc = os.path.join(VERIF, "contracts", b.args[0])
                for ib in vcfile.parse(inc):
                    if ib.kind not in ("group", "unit"):
                        g.blocks.append(ib)
            else:
                g.blocks.append(b)
        groups[g.name] = g
    return groups


def load_probes():
    probes = {}
    p = os.path.join(VERIF, "probes", "probes.tsv")
    if os.path.exists(p):
        for l in open(p):
            l = l.rstrip("\n")
            if not l or l.startswith("#"):
                continue
            f = l.split("\t")
            name, lfile, opts, tags = (f + ["", "", ""])[:4]
            probes[name] = {"file": lfile, "opts": opts.split(), "tags": set(tags.split())}
    return probes


def load_known():
    out = []
    p = os.path.join(VERIF, "known_findings.tsv")
    if os.path.exists(p):
        for l in open(p):
            l = l.rstrip("\n")
            if not l or l.startswith("#"):
                continue
            f = l.split("\t")
            if f[0] == "finding" and len(f) >= 5:
                out.append({"prop": f[1], "unit": f[2], "obl": f[3], "desc": f[4],
                            "repro": f[5] if len(f) > 5 else ""})
    return out


# --------------------------------------------------------------------------
# scratch build
# --------------------------------------------------------------------------
class Scratch:
    def __init__(self, keep=False):
        base = os.environ.get("TMPDIR", "/tmp")
        self.dir = os.path.join(base, "vpflex.%d" % os.getpid())
        self.keep = keep
        self.repo = os.path.join(self.dir, "repo")
        self.src = os.path.join(self.repo, "src")
        self.flex = os.path.join(self.src, "flex")
        self.emit_cache = {}
        self.build_log = ""

    def setup(self):
        shutil.rmtree(self.dir, ignore_errors=True)
        os.makedirs(self.dir)
        rc, o, _ = run(["rsync", "-a", "--exclude", ".git", "--exclude", "/tests",
                        "--exclude", "/doc", "--exclude", "/po", "--exclude", "/examples",
                        "--exclude", "autom4te.cache", REPO + "/", self.repo + "/"], mem=False)
        if rc != 0:
            raise RuntimeError("rsync failed: " + o)
        # force a rebuild of everything that is derived from the sources
        for pat in ["*.o", "*.lo", "cpp-flex.h", "c99-flex.h", "go-flex.h", "parse.c", "parse.h",
                    "scan.c", "stage1scan.c", "stage2scan.c", "flex", "stage1flex", "stage2compare"]:
            for f in glob.glob(os.path.join(self.src, pat)):
                os.unlink(f)
        rc, o, t = run(["make", "-j16", "flex"], cwd=self.src, timeout=600, mem=False)
        self.build_log = o
        if rc != 0 or not os.path.exists(self.flex):
            with open(os.path.join(self.dir, "build.log"), "w") as f:
                f.write(o)
            raise RuntimeError("build of the working tree failed (see build log)\n" + o[-3000:])
        return t

    def cleanup(self):
        if not self.keep:
            shutil.rmtree(self.dir, ignore_errors=True)

    def emit(self, probe, pinfo, cfg):
        """Generate the scanner for (probe,cfg) with the rebuilt flex."""
        key = (probe, cfg)
        if key in self.emit_cache:
            return self.emit_cache[key]
        d = os.path.join(self.dir, "emit", "%s.%s" % (probe, cfg))
        os.makedirs(d, exist_ok=True)
        lsrc = os.path.join(VERIF, "probes", pinfo["file"])
        ltxt = open(lsrc).read()
        sc = "" if cfg == "nr" else "yyscanner"
        ltxt = ltxt.replace("@SC@", (", " + sc) if sc else "").replace("@SC1@", sc)
        with open(os.path.join(d, "probe.l"), "w") as f:
            f.write(ltxt)
        cmd = [self.flex, "-L"] + CFG_OPTS[cfg] + pinfo["opts"] + ["-o", "scanner.c", "probe.l"]
        rc, o, t = run(cmd, cwd=d, timeout=120, mem=False)
        res = {"rc": rc, "out": o, "path": os.path.join(d, "scanner.c"), "dir": d,
               "cmd": " ".join(["flex"] + cmd[1:])}
        self.emit_cache[key] = res
        return res


# --------------------------------------------------------------------------
# one unit
# --------------------------------------------------------------------------
def expand_units(groups, probes, prop, tier, unit_pat):
    out = []
    for g in groups.values():
        for u in g.units:
            props = u.get("props", "").split()
            reent = u.get("props-reent", "").split()
            if prop != "all" and prop not in props and prop not in reent:
                continue
            utier = u.get("tier", "quick")
            if utier == "disabled" and not unit_pat:
                continue
            if tier == "quick" and utier not in ("quick", "disabled"):
                continue
            if g.engine == "S":
                for cfg in u.get("cfgs", "nr").split():
                    if tier == "quick" and cfg in u.get("thorough-cfgs", "").split():
                        continue
                    if prop != "all" and prop not in props and cfg == "nr":
                        continue
                    inst = dict(u)
                    if cfg != "nr" and reent:
                        inst["props"] = " ".join(props + reent)
                    inst["cfg"] = cfg
                    inst["uid"] = "%s@%s" % (u["id"], cfg)
                    out.append(inst)
            else:
                inst = dict(u)
                inst["uid"] = u["id"]
                out.append(inst)
    # variant: the same unit with allocations that never fail and no panic allowed
    for inst in list(out):
        if inst.get("also-nofail") == "yes":
            v = dict(inst)
            v["uid"] = inst["uid"].replace("@", ".nofail@") if "@" in inst["uid"] else inst["uid"] + ".nofail"
            v["flags"] = (inst.get("flags", "") + " --no-malloc-may-fail").strip()
            v["giflags"] = (inst.get("giflags", "") + " --no-malloc-may-fail").strip()
            v["defs"] = ";;".join([d for d in inst.get("defs", "").split(";;") if not d.strip().startswith("PANIC_OK")] + ["PANIC_OK=0"])
            out.append(v)
    if unit_pat:
        out = [u for u in out if fnmatch.fnmatch(u["uid"], unit_pat)]
    return out


def splice_unit(u, scratch, probes, wdir):
    """Returns (path of spliced C file, info dict) or raises SpliceError."""
    g = u["_group"]
    info = {"rewrites": [], "inserted": []}
    if g.engine == "S":
        cfg = u["cfg"]
        pinfo = probes[u["probe"]]
        em = scratch.emit(u["probe"], pinfo, cfg)
        info["emit_cmd"] = em["cmd"]
        if em["rc"] != 0:
            raise vsplice.SpliceError("flex failed on probe %s (%s): %s" % (u["probe"], cfg, em["out"][-500:]))
        text = open(em["path"]).read()
        tags = set(CFG_TAGS[cfg]) | pinfo["tags"]
        origin = "emitted:%s.%s" % (u["probe"], cfg)
    else:
        srcname = u.get("src", g.src)
        text = open(os.path.join(scratch.src, srcname)).read()
        tags = set(u.get("tags", "").split())
        origin = "src/" + srcname
    tags |= set(u.get("tags", "").split())
    info["origin"] = origin
    info["sha256"] = hashlib.sha256(text.encode()).hexdigest()[:16]

    fns = set((u.get("enforce", "") + " " + u.get("replace", "") + " " + u.get("with", "")).split())
    use_rw = set(u.get("rewrites", "").split())
    # rewrites first (explicitly listed modifications)
    rules = []
    for b in g.blocks:
        if b.kind == "rewrite" and vcfile.when_ok(b.opts.get("when"), tags) and b.args[0] in use_rw:
            lines = b.text.split("\n")
            rules.append((lines[0], lines[1], int(b.args[1]) if len(b.args) > 1 else 1))
    if rules:
        text, rlog = vsplice.rewrite_defines(text, rules)
        info["rewrites"] = rlog
    # statement ranges of large functions, extracted verbatim into functions of
    # their own (appended to the translation unit)
    extracted = []
    for b in g.blocks:
        if b.kind == "extract" and vcfile.when_ok(b.opts.get("when"), tags) and b.args[0] in fns:
            spec = {}
            for l in b.text.split("\n"):
                m = re.match(r"^\s*(\w+)\s*:\s*(.*)$", l)
                if m:
                    spec[m.group(1)] = m.group(2)
            nth = None
            if "nth" in spec:
                a, _, b2 = spec["nth"].partition("/")
                nth = (int(a), int(b2))
            body = vsplice.extract_statement(text, spec["from"], spec["start"], nth, int(spec.get("stmts", "1")), int(spec.get("skip", "0")))
            extracted.append((spec["from"], "/* extracted verbatim from %s(): statement starting at %r */\n%s %s(%s)\n{\n%s\n%s\n%s\n}\n"
                             % (spec["from"], spec["start"].replace("/*", "").replace("*/", "").strip(), spec.get("returns_type", "void"), b.args[0], spec.get("params", "void"),
                                spec.get("locals", ""), body, spec.get("return", ""))))
            info.setdefault("extractions", []).append("%s <- %s(): %d bytes verbatim" % (b.args[0], spec["from"], len(body)))
    if extracted:
        # each extracted function is placed directly behind the function it was taken
        # from, so that it is compiled under the same macro definitions (the emitted
        # scanners redefine yyless() behind yylex)
        tmp = vsplice.CFile(text, origin)
        ends = {}
        for fn, _ in extracted:
            if fn not in ends:
                ends[fn] = tmp.toks[tmp.find_function(fn)[4]][2]
        for fn in sorted(ends, key=lambda f: -ends[f]):
            blk = "\n/* ---- vsplice: statement ranges extracted from %s() ---- */\n" % fn + "\n".join(t for f2, t in extracted if f2 == fn)
            text = text[:ends[fn]] + blk + text[ends[fn]:]
    c = vsplice.CFile(text, origin)
    tagdefs = "".join("#define VP_TAG_%s 1\n" % re.sub(r"\W", "_", t) for t in sorted(tags))
    for d in u.get("defs", "").split(";;"):
        if d.strip():
            k, _, v = d.strip().partition("=")
            tagdefs += "#define %s %s\n" % (k.strip(), v.strip())
    c.add_top(tagdefs)
    harness_name = u.get("harness")
    harness_text = None
    nloops = 0
    ntargets = 0
    applied = set()
    for b in g.blocks:
        if not vcfile.when_ok(b.opts.get("when"), tags):
            continue
        k = b.kind
        if k == "top":
            c.add_top(b.text)
        elif k == "decls":
            c.add_after_global_anchor(b.args[0], b.text)
        elif k == "harness":
            if b.args[0] == harness_name:
                harness_text = b.text
        elif k in ("contract", "loop", "body", "entry", "before", "after", "wrap"):
            fn = b.args[0]
            if fn not in fns:
                continue
            if k == "contract":
                c.add_contract(fn, b.text)
                applied.add(fn)
                ntargets = max(ntargets, count_targets(b.text))
            elif k == "loop":
                if fn in u.get("replace", "").split():
                    continue
                tot = int(b.opts["total"]) if "total" in b.opts else None
                c.add_loop_contract(fn, int(b.args[1]), b.args[2], b.text, tot)
                if fn in u.get("enforce", "").split():
                    nloops += 1
            elif k == "body":
                if fn in u.get("replace", "").split():
                    continue
                c.add_loop_body_stmt(fn, int(b.args[1]), b.text)
            elif k == "entry":
                if fn in u.get("replace", "").split():
                    continue
                c.add_entry_stmt(fn, b.text)
            elif k == "wrap":
                if fn in u.get("replace", "").split():
                    continue
                c.add_wrap(fn, b.args[1], b.text)
            else:
                if fn in u.get("replace", "").split():
                    continue
                c.add_before_anchor(fn, b.args[1], b.text, after=(k == "after"))
    if harness_name and harness_text is None:
        raise vsplice.SpliceError("unit %s: harness %s not found" % (u["uid"], harness_name))
    if harness_text:
        c.add_end(harness_text)
    out = c.render()
    info["inserted"] = c.log
    info["identity_ok"] = True
    info["nloops"] = nloops
    info["ntargets"] = ntargets
    info["tags"] = sorted(tags)
    path = os.path.join(wdir, "unit.c")
    with open(path, "w") as f:
        f.write(out)
    # tags of ensures clauses
    etags = {}
    for b in g.blocks:
        if b.kind == "contract" and vcfile.when_ok(b.opts.get("when"), tags) and b.args[0] in fns:
            etags[b.args[0]] = vcfile.ensures_tags(b.text)
    info["etags"] = etags
    return path, info


def count_targets(text):
    """Number of assigns/frees targets of a contract block (top-level commas)."""
    n = 0
    for m in re.finditer(r"__CPROVER_(?:assigns|frees)\s*\(", text):
        i = m.end()
        depth, cnt, seen = 1, 0, False
        while i < len(text) and depth > 0:
            ch = text[i]
            if ch == "(":
                depth += 1
            elif ch == ")":
                depth -= 1
            elif ch == "," and depth == 1:
                cnt += 1
            elif not ch.isspace() and depth >= 1:
                seen = True
            i += 1
        if seen:
            n += cnt + 1
    return n


def parse_cbmc_json(txt):
    """Returns (list of property results, list of error messages)."""
    try:
        data = json.loads(txt)
    except Exception:
        # try to cut trailing garbage
        i = txt.rfind("]")
        try:
            data = json.loads(txt[:i + 1])
        except Exception:
            return None, ["unparsable cbmc output"], None
    props, errs, status = [], [], None
    for m in data:
        if not isinstance(m, dict):
            continue
        if "result" in m:
            props.extend(m["result"])
        if m.get("messageType") == "ERROR":
            errs.append(m.get("messageText", ""))
        if "cProverStatus" in m:
            status = m["cProverStatus"]
    return props, errs, status


def normalize_obligation(p, etags, enforce):
    name = p.get("property", "")
    desc = p.get("description", "")
    m = re.match(r"^(.*)\.postcondition\.(\d+)$", name)
    if m:
        fn, n = m.group(1), int(m.group(2))
        tags = etags.get(fn, ([], []))[0]
        tag = tags[n - 1] if 0 < n <= len(tags) and tags[n - 1] else str(n)
        return "%s.post.%s" % (fn, tag)
    m = re.match(r"^(.*)\.precondition\.(\d+)$", name)
    if m:
        # requires clause of a replaced callee, checked at a call site in fn
        md = re.search(r"contract::(\w+)|of (\w+) in", desc)
        return "%s.pre.%s" % (m.group(1), m.group(2))
    m = re.match(r"^(.*)\.assertion\.(\d+)$", name)
    if m and desc and not name.startswith("__CPROVER"):
        # assertions of bounded harnesses are named by their text
        slug = re.sub(r"[^A-Za-z0-9]+", "_", desc).strip("_")[:70]
        return "%s.assert.%s" % (m.group(1), slug)
    m = re.match(r"^(.*)\.(\d+)$", name)
    if m:
        return m.group(1)
    return name


def run_static_fact(u, scratch, probes):
    """Supporting static fact (not a CBMC proof): the emitted scanner, compiled by
    gcc, defines no writable object with static storage duration (nm: b/B/d/D/C)."""
    res = {"uid": u["uid"], "id": u["id"], "level": "B", "props": u.get("props", "").split(),
           "status": "UNDECIDED", "why": "", "obligations": 0, "discharged": 0, "failed": [],
           "solver_s": 0.0, "enforce": "", "replace": [], "cfg": u.get("cfg", ""), "canary": None, "cmds": [],
           "bound": "static fact checked with gcc + nm on the emitted file (supporting evidence, not a contract proof)"}
    wdir = os.path.join(scratch.dir, "units", re.sub(r"[^\w.@-]", "_", u["uid"]))
    os.makedirs(wdir, exist_ok=True)
    res["wdir"] = wdir
    em = scratch.emit(u["probe"], probes[u["probe"]], u["cfg"])
    if em["rc"] != 0:
        res["why"] = "flex failed on probe"
        return res
    obj = os.path.join(wdir, "scanner.o")
    rc, o, t = run(["gcc", "-c", "-w", "-o", obj, em["path"]], timeout=120, mem=False)
    res["cmds"].append("gcc -c scanner.c; nm scanner.o")
    if rc != 0:
        res["why"] = "gcc failed: " + o[-800:]
        return res
    rc, o, t = run(["nm", obj], timeout=60, mem=False)
    syms = [l.split() for l in o.splitlines() if l.strip()]
    bad = [x[-1] for x in syms if len(x) >= 2 and x[-2] in ("b", "B", "d", "D", "C")]
    allowed = set(u.get("allow", "").split())
    bad = [b for b in bad if b.split(".")[0] not in allowed]
    res["obligations"] = 1
    res["info"] = {"origin": "emitted:%s.%s" % (u["probe"], u["cfg"])}
    res["samples"] = ["nm: writable statics = %s" % (bad or "none")]
    if bad:
        res["status"] = "FAILED"
        res["failed"] = [{"property": "no_mutable_statics", "description": "writable static objects in a reentrant scanner: " + ", ".join(bad),
                          "obligation": "no_mutable_statics", "location": {}}]
    else:
        res["status"] = "PROVED"
        res["discharged"] = 1
    return res


def run_unit(u, scratch, probes, tier):
    if tier == "thorough":
        # deeper variant of a bounded unit: keys prefixed with "thorough-" override the quick ones
        u = dict(u)
        for k in list(u):
            if k.startswith("thorough-") and k != "thorough-cfgs":
                u[k[len("thorough-"):]] = u[k]
    if u.get("checker") == "nm_no_mutable_statics":
        return run_static_fact(u, scratch, probes)
    t0 = time.time()
    res = {"uid": u["uid"], "id": u["id"], "level": u.get("level", "P"), "props": u.get("props", "").split(),
           "status": "UNDECIDED", "why": "", "obligations": 0, "discharged": 0, "failed": [],
           "solver_s": 0.0, "enforce": u.get("enforce", ""), "replace": u.get("replace", "").split(),
           "bound": u.get("bound", ""), "cfg": u.get("cfg", ""), "canary": None, "cmds": []}
    wdir = os.path.join(scratch.dir, "units", re.sub(r"[^\w.@-]", "_", u["uid"]))
    os.makedirs(wdir, exist_ok=True)
    res["wdir"] = wdir
    try:
        path, info = splice_unit(u, scratch, probes, wdir)
    except (vsplice.SpliceError, vcfile.VCError, KeyError, OSError) as e:
        res["why"] = "splice: %s" % e
        return res
    res["info"] = {k: info[k] for k in ("origin", "sha256", "rewrites", "inserted", "nloops", "tags", "extractions") if k in info}
    g = u["_group"]
    harness = u.get("harness")
    entry = u.get("entry") or harness
    a_gb, b_gb = os.path.join(wdir, "a.gb"), os.path.join(wdir, "b.gb")
    cc = ["goto-cc"]
    if g.engine == "G":
        cc += ["-DHAVE_CONFIG_H", "-I" + scratch.src, '-DLOCALEDIR="/usr/local/share/locale"']
    cc += u.get("ccflags", "").split()
    cc += ["--function", entry, path, "-o", a_gb]
    rc, o, t = run(cc, timeout=300)
    res["cmds"].append(" ".join(cc))
    if rc != 0:
        res["why"] = "goto-cc failed: " + o[-1500:]
        res["goto_cc_failed"] = True
        return res
    cur = a_gb
    if u.get("unwindset"):
        n_gb = os.path.join(wdir, "u.gb")
        cmd = ["goto-instrument", "--unwindset", u["unwindset"], "--unwinding-assertions", cur, n_gb]
        rc, o, t = run(cmd, timeout=600)
        res["cmds"].append(" ".join(cmd))
        if rc != 0:
            res["why"] = "goto-instrument --unwindset failed: " + o[-1500:]
            return res
        cur = n_gb
    enforce = u.get("enforce", "").split()
    replace = u.get("replace", "").split()
    if enforce or replace or u.get("dfcc") == "yes":
        cmd = ["goto-instrument", "--dfcc", entry]
        for f in enforce:
            cmd += ["--enforce-contract", f]
        for f in replace:
            cmd += ["--replace-call-with-contract", f]
        if u.get("loopcontracts", "yes") == "yes":
            cmd += ["--apply-loop-contracts"]
        cmd += u.get("giflags", "").split()
        cmd += [cur, b_gb]
        rc, o, t = run(cmd, timeout=900)
        res["cmds"].append(" ".join(cmd))
        with open(os.path.join(wdir, "dfcc.log"), "w") as f:
            f.write(o)
        if rc != 0:
            res["why"] = "goto-instrument --dfcc failed: " + o[-2500:]
            return res
        cur = b_gb
    unwind = u.get("unwind", "3")
    flags = list(SAFETY) if u.get("safety", "yes") == "yes" else []
    flags += u.get("flags", "").split()
    tmo = int(u.get("timeout", "900"))
    if tier == "thorough":
        tmo *= 2
    # The DFCC library's own loops iterate over the assigns/frees targets of the
    # contract (max_elems); the bound needed is (number of targets + 1).  It is
    # computed from the contract text; one retry with a doubled bound if only a
    # library unwinding assertion fails.
    total_t = 0.0
    base = int(unwind)
    if "unwind" not in u:
        base = max(4, info.get("ntargets", 0) + 3)
    for attempt, K in enumerate([base, base * 2 + 8]):
        uw = ["--unwind", str(K), "--unwinding-assertions"]
        cmd = ["cbmc"] + flags + uw + ["--json-ui", cur]
        rc, o, t = run(cmd, timeout=tmo)
        total_t += t
        if rc == "timeout" or rc not in (0, 10):
            break
        pj = parse_cbmc_json(o)
        fails = [pp.get("property", "") for pp in (pj[0] or []) if pp.get("status") == "FAILURE"
                 and "vp_canary" not in pp.get("description", "")]
        if any(re.match(r"^__CPROVER_contracts_\w+\.unwind\.\d+$", f) for f in fails):
            continue    # a library loop bound was too small: every other verdict of this attempt is unreliable
        break
    res["cmds"].append(" ".join(cmd))
    res["unwind_flags"] = uw
    t = total_t
    res["solver_s"] = round(t, 2)
    with open(os.path.join(wdir, "cbmc.json"), "w") as f:
        f.write(o if isinstance(o, str) else "")
    if rc == "timeout":
        res["why"] = "cbmc timeout after %ds" % tmo
        return res
    if rc not in (0, 10):
        res["why"] = "cbmc exit %s: %s" % (rc, o[-1500:])
        return res
    if "ignoring forall" in o or "ignoring exists" in o:
        res["why"] = "quantifier ignored by back end"
        return res
    pr = parse_cbmc_json(o)
    if pr[0] is None:
        res["why"] = "unparsable cbmc output"
        return res
    props, errs, status = pr
    if not props:
        res["why"] = "no obligations generated (%s)" % "; ".join(errs)[:500]
        return res
    canary_mode = u.get("canary", "end")
    failed, nobl, ndis, unknown = [], 0, 0, 0
    canary_seen, canary_failed = False, False
    loopstep = 0
    for p in props:
        name = p.get("property", "")
        desc = p.get("description", "")
        st = p.get("status", "")
        if "vp_canary" in desc:
            canary_seen = True
            if st == "FAILURE":
                canary_failed = True
            continue
        if not p.get("sourceLocation", {}).get("function") and name.startswith("overflow."):
            # arithmetic inside a file-scope initializer (c99 back end:
            # `const int YY_BUF_SIZE = 2 * YY_READ_BUF_SIZE;`): CBMC evaluates
            # such non-constant initializers with the operand unconstrained.
            # Not code of any function; the object then has an arbitrary value,
            # which only generalises the proofs.  Counted separately.
            res.setdefault("static_init_obligations_excluded", []).append(desc)
            continue
        if "loop_invariant_step" in name or "loop invariant is preserved" in desc:
            loopstep += 1
        nobl += 1
        if st == "SUCCESS":
            ndis += 1
        elif st == "FAILURE":
            failed.append({"property": name, "description": desc,
                           "obligation": normalize_obligation(p, info["etags"], enforce),
                           "location": p.get("sourceLocation", {})})
        else:
            unknown += 1
    res["obligations"], res["discharged"] = nobl, ndis
    res["failed"] = failed
    res["samples"] = [p.get("property", "") + ": " + p.get("description", "") for p in props[:3]]
    if canary_mode == "end":
        res["canary"] = "fails-as-required" if canary_failed else ("passes" if canary_seen else "missing")
    if u.get("loopcontracts", "yes") == "yes" and info.get("nloops", 0) and loopstep < info["nloops"]:
        res["why"] = "loop contract dropped (%d contracts, %d step obligations)" % (info["nloops"], loopstep)
        return res
    if failed:
        # cbmc reports obligations behind a failed one as UNKNOWN; the failure decides
        res["status"] = "FAILED"
        return res
    if unknown:
        res["why"] = "%d obligations with unknown status" % unknown
        return res
    if canary_mode == "end" and not canary_failed:
        res["why"] = "vacuity: canary assertion %s" % res["canary"]
        return res
    res["status"] = "PROVED"
    res["wall_s"] = round(time.time() - t0, 2)
    return res


def trace_for(u, res, scratch):
    """Re-run cbmc with --trace for the failed obligations; return compact inputs."""
    wdir = res["wdir"]
    cur = os.path.join(wdir, "b.gb")
    if not os.path.exists(cur):
        cur = os.path.join(wdir, "u.gb") if os.path.exists(os.path.join(wdir, "u.gb")) else os.path.join(wdir, "a.gb")
    flags = list(SAFETY) if u.get("safety", "yes") == "yes" else []
    flags += res.get("unwind_flags", ["--unwind", u.get("unwind", "3"), "--unwinding-assertions"]) + u.get("flags", "").split()
    cmd = ["cbmc"] + flags + ["--trace", "--json-ui"]
    for f in res["failed"][:3]:
        cmd += ["--property", f["property"]]
    cmd.append(cur)
    rc, o, t = run(cmd, timeout=int(u.get("timeout", "900")))
    out = {}
    if rc in (0, 10):
        pr = parse_cbmc_json(o)
        if pr[0]:
            for p in pr[0]:
                if p.get("status") == "FAILURE" and "trace" in p:
                    steps = []
                    for s in p["trace"]:
                        if s.get("stepType") == "assignment" and not s.get("hidden"):
                            lhs = s.get("lhs", "")
                            v = s.get("value", {})
                            val = v.get("data", v.get("name", ""))
                            fn = s.get("sourceLocation", {}).get("function", "")
                            line = s.get("sourceLocation", {}).get("line", "")
                            if not fn or fn.startswith("__CPROVER") or "contracts" in s.get("sourceLocation", {}).get("file", ""):
                                continue
                            steps.append("%s = %s   (%s:%s)" % (lhs, val, fn, line))
                    out[p.get("property")] = steps
    return out


def main():
    ap = argparse.ArgumentParser()
    ap.add_argument("prop")
    ap.add_argument("--tier", default=os.environ.get("VERIF_TIER", "quick"))
    ap.add_argument("--unit", default=None, help="glob on unit ids")
    ap.add_argument("--keep", action="store_true")
    ap.add_argument("--jobs", type=int, default=int(os.environ.get("VP_JOBS", "16")))
    ap.add_argument("--replay", default=None)
    ap.add_argument("--list", action="store_true")
    ap.add_argument("--no-evidence", action="store_true")
    args = ap.parse_args()
    t_start = time.time()
    seed = int(os.environ.get("VERIF_SEED", "0") or 0)
    groups = load_groups()
    probes = load_probes()
    known = load_known()
    prop = args.prop
    unit_pat = args.unit
    if args.replay:
        rp = json.load(open(args.replay))
        prop, unit_pat = rp["property"], rp["unit"]
        args.tier = rp.get("tier", "thorough")
        args.no_evidence = True
    units = expand_units(groups, probes, prop, args.tier, unit_pat)
    if args.list:
        for u in units:
            print(u["uid"], u.get("level", "P"), u.get("props"), u.get("tier", "quick"))
        return 0
    if not units:
        log("no units for", prop)
        return 2
    scratch = Scratch(keep=args.keep)
    try:
        try:
            bt = scratch.setup()
        except RuntimeError as e:
            log("UNDECIDED: %s" % e)
            return 2
        log("scratch %s, flex rebuilt in %.1fs, %d units, tier %s" % (scratch.dir, bt, len(units), args.tier))
        results = []
        # pre-generate probe scanners serially (cheap) so that workers only read
        for u in units:
            if u["_group"].engine == "S":
                scratch.emit(u["probe"], probes[u["probe"]], u["cfg"])
        with cf.ThreadPoolExecutor(max_workers=args.jobs) as ex:
            futs = {ex.submit(run_unit, u, scratch, probes, args.tier): u for u in units}
            for f in cf.as_completed(futs):
                u = futs[f]
                try:
                    r = f.result()
                except Exception as e:  # never let a crash look like a proof
                    r = {"uid": u["uid"], "id": u["id"], "status": "UNDECIDED", "why": "driver exception: %r" % e,
                         "level": u.get("level", "P"), "failed": [], "obligations": 0, "discharged": 0,
                         "solver_s": 0, "props": u.get("props", "").split(), "enforce": u.get("enforce", ""),
                         "replace": [], "bound": "", "cfg": u.get("cfg", ""), "canary": None, "cmds": []}
                r["_u"] = u
                results.append(r)
                log("  %-9s %-44s obl=%d/%d %.1fs %s" % (r["status"], r["uid"], r["discharged"], r["obligations"],
                                                       r.get("solver_s", 0), r["why"][:300].replace("\n", " | ")))
                for fo in r["failed"][:12]:
                    log("      FAIL %s | %s | line %s" % (fo["property"], fo["description"][:160],
                                                         fo["location"].get("line")))
        results.sort(key=lambda r: r["uid"])
        # ---- classify failures ------------------------------------------------
        violations, known_hits, undecided = [], [], []
        props_to_report = [prop] if prop != "all" else sorted({p for r in results for p in r["props"]})
        for r in results:
            if r["status"] == "UNDECIDED":
                undecided.append(r)
            elif r["status"] == "FAILED":
                traces = None
                seen_obl = set()
                for fobl in r["failed"]:
                    if fobl["obligation"] in seen_obl:
                        continue
                    seen_obl.add(fobl["obligation"])
                    kf = None
                    for k in known:
                        if (k["prop"] in r["props"] or k["prop"] == "*") and fnmatch.fnmatch(r["uid"], k["unit"]) \
                                and fnmatch.fnmatch(fobl["obligation"], k["obl"]):
                            kf = k
                            break
                    if kf:
                        known_hits.append((r, fobl, kf))
                    else:
                        if traces is None:
                            traces = trace_for(r["_u"], r, scratch)
                        violations.append((r, fobl, traces.get(fobl["property"], [])))
        rc = 0
        for p in props_to_report:
            seen = set()
            for r, fobl, kf in known_hits:
                if p in r["props"] and (kf["desc"]) not in seen:
                    seen.add(kf["desc"])
                    print("KNOWN-FINDING: property=%s %s %s %s" % (p, r["uid"], fobl["obligation"], kf["desc"]))
        for p in props_to_report:
            for r, fobl, tr in violations:
                if p not in r["props"]:
                    continue
                rdir = os.path.join(VERIF, "replays", p)
                os.makedirs(rdir, exist_ok=True)
                rpath = os.path.join(rdir, "%s.%s.json" % (re.sub(r"[^\w.@-]", "_", r["uid"]),
                                                            re.sub(r"[^\w.@-]", "_", fobl["obligation"])))
                reproduced, native = native_replay(r, fobl, tr, scratch)
                with open(rpath, "w") as f:
                    json.dump({"property": p, "unit": r["uid"], "tier": args.tier,
                               "obligation": fobl["obligation"], "cbmc_property": fobl["property"],
                               "description": fobl["description"], "location": fobl["location"],
                               "function_under_contract": r["enforce"], "origin": r.get("info", {}).get("origin"),
                               "verifier": "cbmc 6.11.0 (goto-instrument --dfcc), SAT",
                               "verifier_commands": r["cmds"],
                               "counterexample_assignments": tr[:400],
                               "native_replay": native, "reproduced": reproduced,
                               "how_to_rerun": "./check %s --replay %s" % (p, rpath)}, f, indent=1)
                suffix = "" if reproduced else " no-failing-input-found"
                print("VIOLATION property=%s replay=%s unit=%s obligation=%s%s" % (p, rpath, r["uid"], fobl["obligation"], "") + suffix)
                rc = 1
        if rc == 0 and undecided:
            for r in undecided:
                print("UNDECIDED unit=%s reason=%s" % (r["uid"], r["why"][:400].replace("\n", " | ")))
            rc = 2
        if not args.no_evidence:
            for p in props_to_report:
                write_evidence(p, args.tier, seed, results, violations, known_hits, undecided,
                               time.time() - t_start, scratch)
        npass = sum(1 for r in results if r["status"] == "PROVED")
        log("%s: %d units, %d proved/passed, %d failed, %d undecided, %.0fs" %
            (prop, len(results), npass, sum(1 for r in results if r["status"] == "FAILED"), len(undecided),
             time.time() - t_start))
        return rc
    finally:
        scratch.cleanup()


def native_replay(r, fobl, trace, scratch):
    """Unit specific native reproducers: key 'replay' of the unit names a
    script under /verif/replayers; it gets the unit work dir, the scratch
    source dir and the trace as JSON on stdin, and prints a JSON object
    {"reproduced": bool, ...}."""
    u = r["_u"]
    script = u.get("replay")
    if not script:
        return False, {"available": False, "note": "no native reproducer for this unit; the obligation and the "
                       "verifier's counterexample assignments are recorded instead"}
    sp = os.path.join(VERIF, "replayers", script.split()[0])
    try:
        p = subprocess.run([sys.executable, sp] + script.split()[1:] + [r["wdir"], scratch.src],
                           input=json.dumps({"trace": trace, "obligation": fobl, "unit": r["uid"]}).encode(),
                           stdout=subprocess.PIPE, stderr=subprocess.PIPE, timeout=120)
        out = json.loads(p.stdout.decode() or "{}")
        return bool(out.get("reproduced")), out
    except Exception as e:
        return False, {"available": True, "error": repr(e)}


TRUSTED = [
    "cbmc 6.11.0 / goto-cc / goto-instrument --dfcc (contract instrumentation) and its SAT back end (CaDiCaL)",
    "CBMC's built-in models of malloc/realloc/free/memset/memcpy/strlen",
    "gcc preprocessor as used by goto-cc; the rebuilt flex and m4 that emit the scanners under proof",
    "vsplice: insertion-only splicing of contract clauses (identity-checked each run)",
]


def write_evidence(p, tier, seed, results, violations, known_hits, undecided, wall, scratch):
    rs = [r for r in results if p in r["props"]]
    P = [r for r in rs if r["level"] == "P"]
    B = [r for r in rs if r["level"] != "P"]
    obl = sum(r["obligations"] for r in P)
    dis = sum(r["discharged"] for r in P)
    assumptions = []
    ap = os.path.join(VERIF, "contracts", "assumptions.tsv")
    if os.path.exists(ap):
        for l in open(ap):
            f = l.rstrip("\n").split("\t")
            if len(f) >= 2 and (f[0] == "*" or p in f[0].split(",")):
                assumptions.append(f[1])
    for r in P:
        for fn in r["replace"]:
            assumptions.append("unit %s: callee %s replaced by its contract" % (r["uid"], fn))
    ev = {
        "property_id": p, "tier": tier, "seed": seed, "level": "proof",
        "coverage": {
            "obligations": obl, "discharged": dis,
            "checker_cmd": "goto-cc --function <h> unit.c; goto-instrument --dfcc <h> --enforce-contract <f> "
                           "[--replace-call-with-contract <g>] --apply-loop-contracts; cbmc " + " ".join(SAFETY) +
                           " --unwind 8 --unwinding-assertions (per unit commands below)",
            "trusted_base": TRUSTED,
            "backend": "cbmc 6.11.0, propositional back end (CaDiCaL, --sat-solver cadical); no quantifiers in any contract",
            "units_under_contract": [
                {"unit": r["uid"], "function": r["enforce"], "origin": r.get("info", {}).get("origin"),
                 "source_sha256_16": r.get("info", {}).get("sha256"), "status": r["status"],
                 "obligations": r["obligations"], "discharged": r["discharged"], "solver_s": r["solver_s"],
                 "replaced_callees": r["replace"], "canary": r["canary"],
                 "loop_contracts": r.get("info", {}).get("nloops"),
                 "text_changes_other_than_insertion": r.get("info", {}).get("rewrites"),
                 "why": r["why"][:300]} for r in P],
            "bounded_units_not_counted_as_proved": [
                {"unit": r["uid"], "bound": r["bound"], "status": r["status"], "obligations": r["obligations"],
                 "passed": r["discharged"], "solver_s": r["solver_s"], "why": r["why"][:300]} for r in B],
            "functions_under_contract": sorted({r["enforce"] for r in P if r["enforce"]}),
            "solver_seconds_total": round(sum(r["solver_s"] for r in rs), 1),
            "samples": [s for r in rs[:6] for s in r.get("samples", [])[:2]] or ["(none)"],
            "known_findings_hit": ["%s %s" % (r["uid"], f["obligation"]) for r, f, k in known_hits if p in r["props"]],
            "undecided_units": [r["uid"] for r in undecided if p in r["props"]],
            "flex_build": "rsync of /repo working tree + make flex in scratch (all objects and generated sources removed first)",
        },
        "assumptions": sorted(set(assumptions)),
        "wall_s": round(wall, 1),
        "violations": sum(1 for r, f, t in violations if p in r["props"]),
    }
    os.makedirs(os.path.join(VERIF, "evidence"), exist_ok=True)
    with open(os.path.join(VERIF, "evidence", p + ".json"), "w") as f:
        json.dump(ev, f, indent=1)


if __name__ == "__main__":
    sys.exit(main())
