#!/usr/bin/env python3
"""vsplice - mechanical insertion of CBMC contract clauses into real C text.

The verified text is the file given (a file of /repo/src or a scanner just
emitted by the rebuilt flex) plus *insertions only* (contract clauses, loop
contracts, ghost statements over vg_* names, ghost declarations, a harness
appended at the end) and a small, explicitly listed set of `#define`
rewrites (generalisation of emitted dimension constants).  Every insertion
is bracketed by /*VS<*/ ... /*>VS*/ so that deleting the brackets and what
is between them must give back the (rewritten) input byte for byte; this is
checked on every splice.

Nothing here knows about flex.  Addressing is by *function name*, by *loop
ordinal + keyword* inside a function and by *anchor text* inside a function,
never by line number.
"""
import re
import sys


class SpliceError(Exception):
    pass


OPEN = "/*VS<*/"
CLOSE = "/*>VS*/"

_ident = re.compile(r"[A-Za-z_][A-Za-z_0-9]*")


def _lex(src):
    """Yield (kind, start, end) for code tokens; comments, strings, char
    constants and preprocessor lines are skipped as units.
    kinds: 'id', 'p' (punctuation, one char), 'pp' (preprocessor line)"""
    i, n = 0, len(src)
    bol = True
    while i < n:
        c = src[i]
        if c == "\n":
            bol = True
            i += 1
            continue
        if c in " \t\r\f\v":
            i += 1
            continue
        if c == "/" and i + 1 < n and src[i + 1] == "*":
            j = src.find("*/", i + 2)
            if j < 0:
                raise SpliceError("unterminated comment")
            i = j + 2
            continue
        if c == "/" and i + 1 < n and src[i + 1] == "/":
            j = src.find("\n", i)
            i = n if j < 0 else j
            continue
        if c == "#" and bol:
            # preprocessor line with continuations
            j = i
            while True:
                k = src.find("\n", j)
                if k < 0:
                    k = n
                    break
                # comment-aware continuation is overkill; backslash-newline only
                if src[k - 1] == "\\":
                    j = k + 1
                    continue
                break
            yield ("pp", i, k)
            i = k
            continue
        bol = False
        if c == '"' or c == "'":
            j = i + 1
            while j < n and src[j] != c:
                if src[j] == "\\":
                    j += 1
                j += 1
            i = j + 1
            yield ("lit", i, i)
            continue
        m = _ident.match(src, i)
        if m:
            yield ("id", i, m.end())
            i = m.end()
            continue
        yield ("p", i, i + 1)
        i += 1


class CFile:
    def __init__(self, text, name="<text>"):
        self.text = text
        self.name = name
        self.toks = list(_lex(text))
        self.ins = []  # (offset, seq, text)
        self._seq = 0
        self.log = []

    # ---- token helpers -------------------------------------------------
    def _s(self, t):
        return self.text[t[1]:t[2]]

    def _match(self, idx, open_c, close_c):
        """idx at token open_c; return index of matching close token."""
        depth = 0
        for j in range(idx, len(self.toks)):
            t = self.toks[j]
            if t[0] == "p":
                ch = self._s(t)
                if ch == open_c:
                    depth += 1
                elif ch == close_c:
                    depth -= 1
                    if depth == 0:
                        return j
        raise SpliceError("unbalanced %s%s in %s" % (open_c, close_c, self.name))

    def find_function(self, fname):
        """Return (name_tok, lparen_tok, rparen_tok, lbrace_tok, rbrace_tok)
        indices of the unique definition of fname at brace depth 0."""
        depth = 0
        found = []
        toks = self.toks
        j = 0
        while j < len(toks):
            t = toks[j]
            if t[0] == "p":
                ch = self._s(t)
                if ch == "{":
                    depth += 1
                elif ch == "}":
                    depth -= 1
            elif t[0] == "id" and depth == 0 and self._s(t) == fname:
                k = j + 1
                if k < len(toks) and toks[k][0] == "p" and self._s(toks[k]) == "{":
                    # function declared through a macro (YY_DECL {)
                    e = self._match(k, "{", "}")
                    found.append((j, k, k, k, e))
                    j = e
                    depth = 0
                elif k < len(toks) and toks[k][0] == "p" and self._s(toks[k]) == "(":
                    r = self._match(k, "(", ")")
                    b = r + 1
                    while b < len(toks) and toks[b][0] == "pp":
                        b += 1
                    if b < len(toks) and toks[b][0] == "p" and self._s(toks[b]) == "{":
                        e = self._match(b, "{", "}")
                        found.append((j, k, r, b, e))
                        j = e
                        depth = 0
            j += 1
        if len(found) != 1:
            raise SpliceError("function %s: %d definitions found in %s"
                              % (fname, len(found), self.name))
        return found[0]

    def loops(self, fname):
        """List of (keyword, insert_offset, body_open_offset_or_None) for every
        loop of fname in source order."""
        _, _, _, b, e = self.find_function(fname)
        toks = self.toks
        out = []
        # stack of brace depths at which a do-body block was opened
        do_close = set()  # token indices of '}' that close a do body
        j = b + 1
        while j < e:
            t = toks[j]
            if t[0] == "id":
                s = self._s(t)
                if s == "do":
                    nb = j + 1
                    while toks[nb][0] == "pp":
                        nb += 1
                    if not (toks[nb][0] == "p" and self._s(toks[nb]) == "{"):
                        raise SpliceError("%s: do without block body" % fname)
                    cb = self._match(nb, "{", "}")
                    do_close.add(cb)
                    out.append(("do", t[2], toks[nb][2]))
                elif s == "while":
                    prev = j - 1
                    while prev > b and toks[prev][0] == "pp":
                        prev -= 1
                    if prev in do_close:
                        pass  # terminator of a do loop
                    else:
                        lp = j + 1
                        rp = self._match(lp, "(", ")")
                        nb = rp + 1
                        while toks[nb][0] == "pp":
                            nb += 1
                        body = toks[nb][2] if (toks[nb][0] == "p" and self._s(toks[nb]) == "{") else None
                        out.append(("while", toks[rp][2], body))
                elif s == "for":
                    lp = j + 1
                    rp = self._match(lp, "(", ")")
                    nb = rp + 1
                    while toks[nb][0] == "pp":
                        nb += 1
                    body = toks[nb][2] if (toks[nb][0] == "p" and self._s(toks[nb]) == "{") else None
                    out.append(("for", toks[rp][2], body))
            j += 1
        return out

    # ---- edits -----------------------------------------------------------
    def insert(self, off, text, what):
        self._seq += 1
        self.ins.append((off, self._seq, OPEN + text + CLOSE))
        self.log.append(what)

    def add_contract(self, fname, clauses):
        _, _, _, b, _ = self.find_function(fname)
        self.insert(self.toks[b][1], "\n" + clauses.rstrip() + "\n", "contract:%s" % fname)

    def add_loop_contract(self, fname, ordinal, kw, clauses, expect_total=None):
        ls = self.loops(fname)
        if expect_total is not None and len(ls) != expect_total:
            raise SpliceError("%s: %d loops found, contract file expects %d"
                              % (fname, len(ls), expect_total))
        if not (1 <= ordinal <= len(ls)):
            raise SpliceError("%s: no loop #%d (%d loops)" % (fname, ordinal, len(ls)))
        k, off, _ = ls[ordinal - 1]
        if k != kw:
            raise SpliceError("%s: loop #%d is '%s', contract file says '%s'"
                              % (fname, ordinal, k, kw))
        self.insert(off, "\n" + clauses.rstrip() + "\n", "loop:%s#%d:%s" % (fname, ordinal, kw))

    def add_loop_body_stmt(self, fname, ordinal, stmt):
        ls = self.loops(fname)
        if not (1 <= ordinal <= len(ls)):
            raise SpliceError("%s: no loop #%d" % (fname, ordinal))
        k, _, body = ls[ordinal - 1]
        if body is None:
            raise SpliceError("%s: loop #%d has no block body" % (fname, ordinal))
        self.insert(body, "\n" + stmt.rstrip() + "\n", "loopbody:%s#%d" % (fname, ordinal))

    def add_entry_stmt(self, fname, stmt):
        """After the declarations is not decidable lexically; C99 allows
        statements anywhere, so insert right after the opening brace."""
        _, _, _, b, _ = self.find_function(fname)
        self.insert(self.toks[b][2], "\n" + stmt.rstrip() + "\n", "entry:%s" % fname)

    def add_before_anchor(self, fname, anchor, stmt, after=False):
        """Insert before (or after) the start of the unique code line of
        fname's body that contains `anchor`."""
        _, _, _, b, e = self.find_function(fname)
        lo, hi = self.toks[b][2], self.toks[e][1]
        body = self.text[lo:hi]
        cnt = body.count(anchor)
        if cnt != 1:
            raise SpliceError("%s: anchor %r occurs %d times" % (fname, anchor, cnt))
        pos = lo + body.index(anchor)
        if after:
            nl = self.text.find("\n", pos)
            off = nl + 1
        else:
            off = self.text.rfind("\n", 0, pos) + 1
        self.insert(off, stmt.rstrip() + "\n", "anchor:%s:%s" % (fname, anchor[:30]))

    def stmt_end(self, i):
        """index of the last token of the statement that starts at token i"""
        t = self.toks[i]
        s = self._s(t)
        if t[0] == "pp":
            return self.stmt_end(i + 1)
        if t[0] == "id" and s in ("for", "while", "if", "switch"):
            r = self._match(i + 1, "(", ")")
            j = self.stmt_end(r + 1)
            if s == "if":
                k = j + 1
                while self.toks[k][0] == "pp":
                    k += 1
                if self.toks[k][0] == "id" and self._s(self.toks[k]) == "else":
                    j = self.stmt_end(k + 1)
            return j
        if t[0] == "id" and s == "do":
            j = self.stmt_end(i + 1)
            r = self._match(j + 2, "(", ")")
            return r + 1
        if t[0] == "p" and s == "{":
            return self._match(i, "{", "}")
        j, depth = i, 0
        while True:
            tt = self.toks[j]
            if tt[0] == "p":
                c = self._s(tt)
                if c in "([{":
                    depth += 1
                elif c in ")]}":
                    depth -= 1
                elif c == ";" and depth == 0:
                    return j
            j += 1

    def add_wrap(self, fname, anchor, stmt):
        """anchor is the full text of one simple statement (ending in ';')
        that occurs once in fname; the statement is wrapped as
        '{ <ghost stmt> <statement> }' - two insertions, the statement itself
        is untouched; needed where the statement is the brace-less branch of
        an if/for."""
        _, _, _, b, e = self.find_function(fname)
        m = re.match(r"^loopbody#(\d+)$", anchor)
        if m:
            # the whole body statement of the N-th loop (for/while)
            ls = self.loops(fname)
            n = int(m.group(1))
            if not (1 <= n <= len(ls)) or ls[n - 1][0] == "do":
                raise SpliceError("%s: no for/while loop #%d" % (fname, n))
            off = ls[n - 1][1]
            ti = next(i for i, t in enumerate(self.toks) if t[1] >= off)
            te = self.stmt_end(ti)
            self.insert(self.toks[ti][1], "{ " + stmt.strip() + " ", "wrap-open:%s:%s" % (fname, anchor))
            self.insert(self.toks[te][2], " }", "wrap-close:%s" % fname)
            return
        m = re.match(r"^return#(\d+)(?:/(\d+))?$", anchor)
        if m:
            # N-th return statement of the function (optionally: of M in total)
            rets = []
            j = b + 1
            while j < e:
                t = self.toks[j]
                if t[0] == "id" and self._s(t) == "return":
                    k = j + 1
                    while not (self.toks[k][0] == "p" and self._s(self.toks[k]) == ";"):
                        k += 1
                    rets.append((t[1], self.toks[k][2]))
                    j = k
                j += 1
            n = int(m.group(1))
            if m.group(2) and int(m.group(2)) != len(rets):
                raise SpliceError("%s: %d return statements, contract file expects %s"
                                  % (fname, len(rets), m.group(2)))
            if not (1 <= n <= len(rets)):
                raise SpliceError("%s: no return #%d" % (fname, n))
            self.insert(rets[n - 1][0], "{ " + stmt.strip() + " ", "wrap-open:%s:%s" % (fname, anchor))
            self.insert(rets[n - 1][1], " }", "wrap-close:%s" % fname)
            return
        lo, hi = self.toks[b][2], self.toks[e][1]
        body = self.text[lo:hi]
        if body.count(anchor) != 1 or not anchor.rstrip().endswith(";"):
            raise SpliceError("%s: wrap anchor %r occurs %d times / is not a statement"
                              % (fname, anchor, body.count(anchor)))
        pos = lo + body.index(anchor)
        self.insert(pos, "{ " + stmt.strip() + " ", "wrap-open:%s:%s" % (fname, anchor[:30]))
        self.insert(pos + len(anchor), " }", "wrap-close:%s" % fname)

    def add_top(self, text):
        self.insert(0, text.rstrip() + "\n", "top")

    def add_after_global_anchor(self, anchor, text):
        cnt = self.text.count(anchor)
        if cnt != 1:
            raise SpliceError("global anchor %r occurs %d times" % (anchor, cnt))
        pos = self.text.index(anchor)
        nl = self.text.find("\n", pos)
        self.insert(nl + 1, text.rstrip() + "\n", "globalanchor:%s" % anchor[:30])

    def add_end(self, text):
        self.insert(len(self.text), "\n" + text.rstrip() + "\n", "end")

    def render(self):
        out = []
        last = 0
        for off, _, txt in sorted(self.ins):
            out.append(self.text[last:off])
            out.append(txt)
            last = off
        out.append(self.text[last:])
        res = "".join(out)
        if strip(res) != self.text:
            raise SpliceError("identity check failed for %s" % self.name)
        return res


def extract_statement(text, fname, anchor, nth=None, nstmts=1, skip=0):
    """Return the verbatim text of the complete statement of function fname that
    starts at the unique occurrence of `anchor` (an if/for/while header or a
    simple statement): through the matching '}' of its block, or through the ';'
    that ends it (following an `else` of an `if`)."""
    cf = CFile(text, "extract")
    _, _, _, b, e = cf.find_function(fname)
    lo, hi = cf.toks[b][2], cf.toks[e][1]
    body = text[lo:hi]
    if nth is None:
        if body.count(anchor) != 1:
            raise SpliceError("%s: extraction anchor %r occurs %d times" % (fname, anchor, body.count(anchor)))
        start = lo + body.index(anchor)
    else:
        n, total = nth
        if body.count(anchor) != total:
            raise SpliceError("%s: extraction anchor %r occurs %d times, contract file expects %d"
                              % (fname, anchor, body.count(anchor), total))
        pos = -1
        for _ in range(n):
            pos = body.index(anchor, pos + 1)
        start = lo + pos
    # token index at start
    ti = next(i for i, t in enumerate(cf.toks) if t[1] >= start)
    if skip:
        # the statement starts `skip` tokens after the anchor (e.g. the block after a case label)
        ti += skip
        start = cf.toks[ti][1]

    def stmt_end(i):
        t = cf.toks[i]
        s = cf._s(t)
        if t[0] == "id" and s in ("for", "while", "if", "switch"):
            r = cf._match(i + 1, "(", ")")
            j = stmt_end(r + 1)
            if s == "if":
                k = j + 1
                while cf.toks[k][0] == "pp":
                    k += 1
                if cf.toks[k][0] == "id" and cf._s(cf.toks[k]) == "else":
                    j = stmt_end(k + 1)
            return j
        if t[0] == "id" and s == "do":
            j = stmt_end(i + 1)      # body
            k = j + 1                # while
            r = cf._match(k + 1, "(", ")")
            return r + 1             # ';'
        if t[0] == "p" and s == "{":
            return cf._match(i, "{", "}")
        if t[0] == "pp":
            return stmt_end(i + 1)
        j = i
        depth = 0
        while True:
            tt = cf.toks[j]
            if tt[0] == "p":
                c = cf._s(tt)
                if c in "([{":
                    depth += 1
                elif c in ")]}":
                    depth -= 1
                elif c == ";" and depth == 0:
                    return j
            j += 1
    end_tok = stmt_end(ti)
    for _ in range(nstmts - 1):       # further consecutive statements
        end_tok = stmt_end(end_tok + 1)
    return text[start:cf.toks[end_tok][2]]


_strip_re = re.compile(re.escape(OPEN) + r".*?" + re.escape(CLOSE), re.S)


def strip(text):
    return _strip_re.sub("", text)


def rewrite_defines(text, rules):
    """rules: list of (regex, replacement, expected_count).  Returns new text
    and a log of what was changed.  A rule that does not fire exactly
    expected_count times raises."""
    log = []
    for rx, rep, cnt in rules:
        new, n = re.subn(rx, rep, text, flags=re.M)
        if n != cnt:
            raise SpliceError("rewrite %r fired %d times, expected %d" % (rx, n, cnt))
        log.append("rewrite %s -> %s (%d)" % (rx, rep, n))
        text = new
    return text, log


if __name__ == "__main__":
    # small self test: list functions' loops
    src = open(sys.argv[1]).read()
    cf = CFile(src, sys.argv[1])
    for fn in sys.argv[2:]:
        print(fn, [(k, src.count("\n", 0, o) + 1) for k, o, _ in cf.loops(fn)])
