#!/bin/sh
# confirm_seed.sh WORKTREE K PROP NAME : re-verify seed WORKTREE/SEED/K independently and store it as /verif/seeded/NAME
# (patch applies, builds, 257 tests pass, demo fails with / passes without).
W="$1"; K="$2"; P="$3"; N="$4"
S="$W/SEED/$K"; OUT=/verif/seeded/$N
LOG=/tmp/seed/confirm.$N.log
: > $LOG
cd "$W" || exit 1
git checkout -- . >/dev/null 2>&1
git apply --check "$S/patch.diff" || { echo "$N: patch does not apply"; exit 1; }
git apply "$S/patch.diff"
./runtests.sh >>$LOG 2>&1 || ./runtests.sh >>$LOG 2>&1
T_WITH=$?
grep -E "^# (PASS|FAIL)" check.log | tr '\n' ' ' >>$LOG
PASSLINE=$(grep -E "^# PASS" check.log)
( cd "$S" && timeout 900 sh ./demo.sh "$W" ) >>$LOG 2>&1; D_WITH=$?
git checkout -- . >/dev/null 2>&1
make -j8 >/dev/null 2>&1 || make >/dev/null 2>&1
( cd "$S" && timeout 900 sh ./demo.sh "$W" ) >>$LOG 2>&1; D_WITHOUT=$?
echo "$N: tests_with_patch_rc=$T_WITH ($PASSLINE) demo_with=$D_WITH demo_without=$D_WITHOUT"
if [ $T_WITH -eq 0 ] && [ $D_WITH -ne 0 ] && [ $D_WITHOUT -eq 0 ]; then
  mkdir -p $OUT
  cp -r "$S"/. $OUT/
  python3 - "$OUT" "$P" "$N" "$PASSLINE" "$D_WITH" <<'PY'
import json,sys,os
out,prop,name,passline,dwith=sys.argv[1:6]
notes=open(os.path.join(out,'notes.md')).read() if os.path.exists(os.path.join(out,'notes.md')) else ''
json.dump({"id":name,"property":prop,"source":"independent sub-agent given only the property text and a scratch worktree",
 "needs_to_manifest":"see notes.md (written by the sub-agent)",
 "confirmed":{"applies_to_pinned_tree":True,"builds":True,"suite":passline.strip(),"demo_exit_with_patch":int(dwith),"demo_exit_without_patch":0,
  "how":"tools/confirm_seed.sh: git apply in a scratch worktree, runtests.sh (rebuild flex, regenerate every test scanner, make check), demo.sh with and without the patch"}},
 open(os.path.join(out,'meta.json'),'w'),indent=1)
PY
  echo "$N: STORED"
else
  echo "$N: NOT CONFIRMED (see $LOG)"
fi
