#!/usr/bin/env python3
"""Writes /verif/MANIFEST.json from the table below (kept next to the code so that the
claims are edited in one place)."""
import json
T = "contract-based deductive verification: CBMC 6.11 DFCC function contracts + loop contracts (goto-instrument --dfcc --enforce-contract / --replace-call-with-contract / --apply-loop-contracts), SAT back end (CaDiCaL), contracts spliced into the real sources / emitted scanners on every run"
P = {
"C01": ("proof", "Proved for all inputs (per function): class membership test, class negation, ccladd (no duplicates, order kept), class difference and union as set algebra with negation (ccl.c); negated POSIX class expressions over the whole alphabet, distribution of a rule over start conditions (parse.y actions as bison emits them). Bounded stand-in: snstods' first-rule priority (<=3 accepting numbers). NOT covered: NFA construction (nfa.c), subset construction as a whole, scan.l's pattern lexing, the matching loop inside yylex - the property as a whole is therefore only partially decided.", "4 C01"),
"C02": ("proof", "Proved: check_options refuses every unsupported table/API combination on normal return and keeps explicit choices; gentabs emits yy_nxt/yy_chk cells equal to the table cells in both the in-code and the serialized form. NOT covered: table placement (tblcmp.c mkentry/mktemplate), width selection, the per-representation lookup code, 'every configuration compiles' - thin coverage, stated as such.", "4 C02"),
"C03": ("proof", "Proved: yy_scan_buffer / yy_scan_bytes deliver exactly the given bytes with two sentinels for every length and content; interactive is the default exactly for compressed tables (check_options). yy_get_next_buffer has a complete contract (contracts/scanner_buf.vc) that CBMC proves only in ~6 min per attempt; it is registered as a disabled unit and not counted. NOT covered: yyread, the resumption logic inside yylex.", "4 C03"),
"C04": ("proof", "Proved: check_char refuses every symbol outside the scanner's alphabet (and cannot return for one), class membership and ccladd work for every byte value including 0, negated POSIX classes cover bytes >= 0x80, yy_flush_buffer/yy_scan_bytes keep exactly two sentinels and copy NUL bytes verbatim. NOT covered: NUL handling inside yylex / yy_try_NUL_trans / yyinput.", "4 C04"),
"C05": ("proof", "Proved for any stack depth and any history of the functions under contract: yy_push_state/yy_pop_state/yy_top_state are a LIFO stack that grows on demand, underflow reaches the fatal-error hook and nothing else does; the verified assigns clauses of yyrestart, yy_scan_*, yyunput do not contain the start condition; rules without <...> go to exactly the inclusive conditions, scoped rules to exactly the listed ones (parse.y flexrule actions). NOT covered: '<*>' scon action, yylex's own use of yy_start.", "4 C05"),
"C06": ("proof", "Proved: yy_flush_buffer (hence yyrestart, yy_init_buffer, yy_create_buffer) sets beginning-of-line for the buffer; '^' rules are attached to exactly the right conditions and switch BOL tracking on; gentabs adds YY_TRAILING_MASK exactly to variable rules without head mask. NOT covered: headcnt/trailcnt bookkeeping of rule/re2 actions, finish_rule, the trailing-context walk inside yylex.", "4 C06"),
"C07": ("proof", "Bounded stand-in (<=3 accepting numbers): snstods stores the accepting set sorted ascending as a permutation of the given set and marks exactly its rules useful; proved: gentabs emits each state's accepting list in order with the trailing-context flag, identically in code and in the tables file. NOT covered: the yyreject()/find_rule walk inside yylex, the REJECT refusal in readin().", "4 C07"),
"C08": ("proof", "Bounded stand-in (buffers of <= 6 bytes, everything else symbolic): yyunput makes c the next character read, keeps every other buffered byte and both sentinels, shifts the text up when fewer than 2 bytes are free and reports overflow through the fatal hook instead of writing outside the buffer. NOT covered: yyinput, yyless, yymore (macros / code inside yylex).", "4 C08"),
"C09": ("proof", "Proved: ccl_has_nl follows class membership of newline through ccladd, cclinit and cclnegate; new_rule clears rule_has_nl. NOT covered: the rule_has_nl bookkeeping of the grammar actions, the counting block in yylex, yyinput/yyunput adjustments with %option yylineno (the probes are generated without it).", "4 C09"),
"C10": ("proof", "Proved: yyrestart re-initialises the current buffer (empty, two sentinels, BOL, new file) and leaves the start condition alone; an unqualified <<EOF>> rule is attached to exactly the conditions without their own (parse.y action); yy_switch_to_buffer sets the flag that stops yylex from restarting. NOT covered: the EOF branch inside yylex (yywrap consultation, EOF action dispatch).", "4 C10"),
"C11": ("proof", "Proved for every buffer content, size and stack depth: create/delete/flush/init/switch/push/pop/ensure_stack/scan_buffer/scan_bytes keep the saved position, fill level and hold character of the buffer that is left, load exactly those of the buffer that is entered, grow the stack without losing slots, and touch no other buffer (verified assigns clauses). NOT covered: histories interleaved with yylex.", "4 C11"),
"C12": ("proof", "Proved: every API function of the reentrant cpp scanner and of the c99 scanner that is under contract writes only through its yyscanner argument, its buffer arguments and errno (DFCC assigns-clause checking); yylex_init/_extra/yy_init_globals initialise every field. Supporting static fact: the emitted reentrant scanners define no writable static object (gcc + nm). NOT covered: thread schedules, C++ objects, multi-prefix linking.", "4 C12"),
"C13": ("proof", "Every unit on emitted scanner code runs with bounds, pointer, pointer-overflow, signed-overflow and division checks: the functions under contract are memory-safe for every state satisfying the buffer/stack representation invariants, which each of them re-establishes; frees clauses prove that only allocator results are released, once. NOT covered: yylex, yylex_destroy's loop, table index ranges (WF_TBL), uninitialised reads as such.", "4 C13"),
"C14": ("proof", "Proved with CBMC's allocation-failure model (any malloc/realloc may return NULL): yy_create_buffer, yyensure_buffer_stack, yy_push_state, yy_scan_buffer, yy_scan_bytes, yyrestart either reach the fatal hook or complete, never use the NULL; yylex_init/yylex_init_extra return non-zero with ENOMEM / EINVAL. '.nofail' variants prove the fatal hook is NOT reached when allocations succeed. NOT covered: yyread's EINTR loops, yy_get_next_buffer's realloc check, tables loader.", "4 C14"),
"C15": ("proof", "Proved: the yy_nxt, yy_chk and yy_acclist elements written to the tables file equal the elements emitted in code (gentabs, both sinks of the same loop). NOT covered: the file layout writer (tables.c), the loader (yytbl_*), round trip, truncation - thin coverage, stated as such.", "4 C15"),
"C16": ("proof", "Proved: a child of flex that fails or is killed makes the exit status non-zero (flex_main wait loop); exceeding MAX_RULE is reported; symbols outside the alphabet are reported; add_action never writes outside action_array for texts up to 3x its capacity; ccladd to a non-last class is fatal. NOT covered: termination and crash-freedom of flex on arbitrary files, scan.l's length guards, filter chain, write failures.", "4 C16"),
"C17": ("proof", "Proved: flex_main warns 'rule cannot be matched' for exactly the rules not marked useful (except the default rule) and the -s warning exactly when the default rule is marked and REJECT is not used; new_rule clears the mark; bounded stand-in: snstods marks exactly the selected rule(s). The 'iff some input selects the rule' is relative to ntod's reachability (A-ntod, not verified).", "4 C17"),
"C18": ("proof", "Proved: gentabs emits the jam state for every yy_nxt cell nobody assigned (chk == 0), whatever nxt[] holds there - the mechanism that keeps heap garbage out of the output. NOT covered: zeroing of chk on growth (expand_nxt_chk: contract written, CBMC runs out of memory on the 8000-byte memset), process id/time/stdout-vs-file, bootstrap comparison - thin coverage.", "4 C18"),
"C20": ("proof", "Proved: add_action appends exactly the given bytes behind the text accumulated so far, keeps that text and the terminator, and grows the buffer as often as needed (texts up to 3x capacity). NOT covered: scan.l's copying rules, #line generation and renumbering (filter_fix_linedirs, line_directive_out) - thin coverage.", "4 C20"),
}
checks = []
for pid, (cat, text, ref) in sorted(P.items()):
    checks.append({
        "property_id": pid,
        "quick_cmd": "./check %s --tier quick" % pid,
        "thorough_cmd": "./check %s --tier thorough" % pid,
        "evidence_file": "/verif/evidence/%s.json" % pid,
        "replay_cmd_template": "./check %s --replay {path}" % pid,
        "engine": "G+S",
        "level_claimed": {"category": cat, "text": text, "design_ref": ref},
        "level_note": "Trusted: CBMC/goto-instrument DFCC and CaDiCaL; libc/OS functions through assumed contracts; ghost-index contracts (no quantifiers); bounded units are labelled and never counted in obligations/discharged. Full list per run in the evidence file (assumptions, units_under_contract, bounded_units_not_counted_as_proved).",
        "technique": T,
    })
m = {
 "version": 1,
 "setup_cmd": "true",
 "hooks": {"guard": "WESTES_FLEX_VERIF",
           "enable": "no hooks in /repo: contracts, loop contracts and ghost statements are spliced by /verif/lib/vsplice.py into a scratch copy of the working tree (and into the scanners the rebuilt flex emits) on every run",
           "baseline_off_cmd": "make -C /repo/tests clean >/dev/null 2>&1; make -C /repo check",
           "source_commits": [], "add_only": True},
 "engines": [
  {"name": "G", "path": "/verif/contracts", "serves_properties": ["C01","C02","C03","C04","C05","C06","C07","C09","C10","C15","C16","C17","C18","C20"],
   "kind_free_text": "CBMC DFCC contracts spliced into generator sources of /repo/src (ccl.c misc.c nfa.c dfa.c main.c gen.c, bison-generated parse.c)"},
  {"name": "S", "path": "/verif/contracts", "serves_properties": ["C03","C04","C05","C06","C08","C10","C11","C12","C13","C14"],
   "kind_free_text": "CBMC DFCC contracts spliced into scanners emitted by the rebuilt flex from /verif/probes/*.l (cpp non-reentrant, cpp -R, --emit=c99)"}],
 "checks": checks,
 "notes": "Exit codes of ./check: 0 all units decided and no unlisted failed obligation; 1 VIOLATION lines; 2 undecided (timeout, tool failure, extraction anchor lost) - never reported as a violation. /repo carries one unguarded fix: commit (ccl_set_union), recorded in known_findings.tsv. Seeded changes and which units catch them: DESIGN.md section 10 and /verif/seeded/.",
 "not_applicable": [{"property_id": "C19", "reason": "an option's effect travels through printf'd m4_define lines and m4_ifdef in the skeletons; no C function has a postcondition that can express 'the scanner now has a main()' - per-function contracts can neither state nor decide it (DESIGN.md 4 C19)"}],
}
json.dump(m, open('/verif/MANIFEST.json', 'w'), indent=1)
print("ok", len(checks))
