#!/bin/sh
# mkseedtree.sh DIR : scratch git worktree of /repo (HEAD) with the configured
# build files copied in, so that DIR/runtests.sh (build + regenerate the test
# scanners with the modified flex + make check) works there.
set -e
D="$1"
git -C /repo worktree add --detach "$D" HEAD >/dev/null 2>&1
rsync -a --ignore-existing --exclude .git /repo/ "$D"/
for f in Makefile src/Makefile tests/Makefile doc/Makefile examples/Makefile examples/manual/Makefile examples/fastwc/Makefile po/Makefile lib/Makefile tools/Makefile config.status; do
  [ -f "$D/$f" ] && sed -i "s|/repo|$D|g" "$D/$f"
done
cat > "$D/runtests.sh" <<'EOT'
#!/bin/sh
# build flex from the current sources, regenerate every test scanner with it, run the suite
cd "$(dirname "$0")"
make -j8 >build.log 2>&1 || { echo "BUILD FAILED"; tail -20 build.log; exit 1; }
make -C tests clean >/dev/null 2>&1
make check -j8 >check.log 2>&1
grep -E "^# (TOTAL|PASS|FAIL|XFAIL|ERROR)" check.log
grep -q "^# PASS:  257" check.log
EOT
chmod +x "$D/runtests.sh"
echo "$D"
