#!/bin/sh
# mutcheck.sh PROP 'sed-expr' FILE [check args]: run a check against a mutated scratch copy of /repo
P="$1"; E="$2"; F="$3"; shift 3
M=/tmp/mrepo.$$
rm -rf $M; rsync -a --exclude .git --exclude /tests /repo/ $M/
sed -i "$E" $M/$F
if diff -q /repo/$F $M/$F >/dev/null; then echo "MUTATION DID NOT CHANGE $F"; rm -rf $M; exit 3; fi
VP_REPO=$M /verif/check $P --no-evidence "$@" 2>&1 | grep -v "^  PROVED" | tail -15
rm -rf $M
