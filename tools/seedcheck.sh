#!/bin/sh
# seedcheck.sh SEED [PROP] [check args]: run checks of PROP (default: the seed's property) against /repo + seeded/SEED/patch.diff
S="$1"; P="${2:-$(echo $S | cut -d- -f1)}"; shift; [ $# -gt 0 ] && shift
M=/tmp/mrepo.$$
rm -rf $M; rsync -a --exclude .git --exclude /tests /repo/ $M/
( cd $M && patch -p1 -s < /verif/seeded/$S/patch.diff ) || { echo "patch failed"; rm -rf $M; exit 3; }
VP_REPO=$M /verif/check $P --no-evidence "$@" 2>&1 | grep -E "FAILED|UNDECIDED|FAIL |VIOLATION|units," | cut -c1-200 | head -20
rm -rf $M
