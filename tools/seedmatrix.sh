#!/bin/sh
# seedmatrix.sh [seed...] : run each seeded change against the checks of its property; one line per seed
# in /verif/seeded/RESULTS.tsv : seed <TAB> property <TAB> exit code <TAB> failing units/obligations
cd /verif
OUT=/verif/seeded/RESULTS.tsv
[ $# -eq 0 ] && { set -- $(ls seeded | grep -E '^C[0-9]+-[0-9]+$'); : > $OUT; }
for S in "$@"; do
  P=$(echo $S | cut -d- -f1)
  M=/tmp/mrepo.sm.$$
  rm -rf $M; rsync -a --exclude .git --exclude /tests /repo/ $M/
  if ! ( cd $M && patch -p1 -s < /verif/seeded/$S/patch.diff ) >/dev/null 2>&1; then echo "$S	$P	patch-failed	" >> $OUT; rm -rf $M; continue; fi
  VP_REPO=$M timeout 3000 ./check $P --no-evidence > /tmp/sm.$$.out 2>&1; RC=$?
  V=$(grep '^VIOLATION' /tmp/sm.$$.out | sed 's/.*unit=\([^ ]*\) obligation=\([^ ]*\).*/\1:\2/' | grep -v "__CPROVER" | head -4 | tr '\n' ' ')
  U=$(grep '^UNDECIDED' /tmp/sm.$$.out | sed 's/UNDECIDED unit=\([^ ]*\) .*/\1/' | head -3 | tr '\n' ' ')
  echo "$S	$P	$RC	${V}${U:+ undecided: $U}" >> $OUT
  rm -rf $M /tmp/sm.$$.out
done
