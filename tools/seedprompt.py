#!/usr/bin/env python3
"""seedprompt.py Cxx DIR -> prompt text for an independent sub-agent that seeds a
property-breaking change.  Contains only the property record and the work tree."""
import json, sys
pid, d = sys.argv[1], sys.argv[2]
for l in open('/verif/properties.jsonl'):
    p = json.loads(l)
    if p['id'] == pid:
        break
mech = "\n".join("  - %s (%s)" % (m['name'], m['where']) for m in p['anchors'].get('mechanism', []))
state = "\n".join("  - %s: %s (%s)" % (m['name'], m['meaning'], m['where']) for m in p['anchors'].get('state', []))
print(f"""You are helping to evaluate a verification effort for flex (the lexical analyzer generator, westes/flex).
Your job is to act as a realistic source of regressions: produce changes to flex's source code that BREAK the
semantic property below while the code still compiles and the existing test suite still passes.

Work ONLY inside your own scratch git worktree: {d}
(it is a configured, built copy of the repository; never touch /repo or /verif, never read /verif).
There is no network. `{d}/runtests.sh` rebuilds flex from the current sources, regenerates every test
scanner with it and runs the whole suite; it prints the totals and succeeds only if all 257 tests pass
(takes about a minute). The built generator is {d}/src/flex. The scanner run-time code lives in the m4 skeletons
src/cpp-flex.skl (default C back end) and src/c99-flex.skl (--emit=c99); the generator is src/*.c, src/parse.y, src/scan.l.

PROPERTY {p['id']}: {p['title']}
Statement: {p['statement']}
Quantified over: {p['quantifier']['text']}
State it depends on:
{state}
Mechanisms that implement it:
{mech}

What to produce: up to THREE independent changes (each a separate small patch against the pristine tree, touching
different functions / mechanisms), each of which:
  * is the kind of edit a maintainer could plausibly make (an off-by-one, a dropped or reordered statement, a wrong
    comparison, a forgotten case, a resource handled at the wrong moment, two sites that each look fine alone ...),
    1-15 changed lines, in the real source files (src/*.c, src/parse.y, src/scan.l, src/*.skl) - not in tests;
  * breaks the property above in a way that needs something SPECIFIC to manifest: an unusual input (e.g. NUL bytes,
    a token straddling a buffer refill, a class with a negation, a very long line), a particular option combination,
    a multi-step sequence of API calls, a fault at a particular point (allocation failure, short read, EINTR), a
    boundary size - NOT something every ordinary use would expose at once;
  * still compiles, and `{d}/runtests.sh` still reports all 257 tests passing with the change applied;
  * comes with a demonstration: a small self-contained script demo.sh (plus any .l / .c / input files it needs) taking
    the path of a flex source tree as $1 (it may use $1/src/flex, and gcc), that exits 0 on the pristine tree and
    exits non-zero (printing what went wrong) on the tree with your change applied. Wrap anything that might hang in
    `timeout`.

Procedure for each change k = 1,2,3: start from the pristine tree (`git -C {d} checkout -- . && git -C {d} status`),
make the edit, run `{d}/runtests.sh` and confirm 257 pass, run your demo against it and confirm it fails, save
`git -C {d} diff > {d}/SEED/k/patch.diff`, then revert (`git -C {d} checkout -- .`), rebuild (`make -C {d} -j8`)
and confirm the demo passes on the pristine tree. Store everything for change k in {d}/SEED/k/ :
patch.diff, demo.sh (+ helper files), and notes.md saying: which part of the property it breaks, what exactly is needed
for it to manifest, which function(s) you edited, and the commands you ran with their observed results.
Leave the worktree pristine (no uncommitted source edits) when you finish. Do not commit anything.

Finish with a short report listing, per change, the edited file/function, the trigger, and whether all checks
(compiles, 257 pass, demo fails with / passes without) were confirmed. If a candidate change turns out to make an
existing test fail, discard it and try another. Quality over quantity: one well-verified subtle change is worth
more than three sloppy ones.""")
