#!/usr/bin/env python3
"""Markdown table for DESIGN.md section 10 from seeded/RESULTS.tsv and the one-line descriptions below."""
D = {
"C01-1": "parse.y CCL_NEG_EXPR: `isascii(c) &&` added - [:^digit:] loses bytes >= 0x80",
"C01-2": "gen.c make_tables: M4_MODE_NULTRANS_WRAP only with nultrans - -Cfe yy_try_NUL_trans stops recording the back-up point",
"C01-3": "parse.y scon '<*>': `i < lastsc` - <*> rules miss the last declared condition",
"C02-1": "tblcmp.c find_table_space: end pointer one short - -CF overwrites another state's slot for the last class",
"C02-2": "gen.c make_tables: NEED_YY_CP / NULTRANS_WRAP only when !nultrans - -Cf loses the back-up point on NUL",
"C02-3": "cpp-flex.skl yytbl_data_load: t16 unsigned - 16-bit serialized entries zero-extended (-Ca + tables file)",
"C03-1": "cpp-flex.skl yylex EOB action: `<=` -> `<` - a NUL that is the last buffered byte is taken for the sentinel",
"C03-2": "main.c check_options: `|| ctrl.use_read` - -Cr scanners silently become batch scanners",
"C03-3": "cpp-flex.skl yy_get_next_buffer: `num_to_read <= 0` -> `< 0` - buffer never grows, 0-byte read taken for EOF",
"C04-1": "same edit as C03-1 (found independently)",
"C04-2": "dfa.c symfollowset: NUL -> NUL_ec mapping dropped in the negated-class branch",
"C04-3": "misc.c check_char: `>=` -> `>` - a 7-bit scanner accepts \\\\200",
"C05-1": "parse.y flexrule '^' rule: `!scxclu[i]` dropped - unscoped ^-rules become active in exclusive conditions",
"C05-2": "cpp-flex.skl yy_pop_state: `--ptr < 0` -> `ptr-- < 0` - one underflow goes unreported",
"C05-3": "cpp-flex.skl yylex init: `if (!yy_start)` guard removed - yybegin before the first yylex is lost",
"C06-1": "parse.y rule: re2 re: `headcnt = 0` dropped for shared actions - rules falling into the action are cut",
"C06-2": "cpp-flex.skl: `yyatbol = 1` moved from yy_flush_buffer to the not-current branch of yy_init_buffer",
"C06-3": "cpp-flex.skl yylex find_rule: two arms of the trailing-context if-chain swapped",
"C07-1": "dfa.c snstods: `qsort(accset, ...)` instead of `&accset[1]`",
"C07-2": "cpp-flex.skl yyreject macro: `yy_current_state = *yy_state_ptr` dropped (variable trailing context)",
"C07-3": "same edit as C03-3 in a REJECT scanner (documented fatal error never reached)",
"C08-1": "cpp-flex.skl yyinput: offset computed after `++yy_c_buf_p` - first byte after a refill dropped",
"C08-2": "cpp-flex.skl yylex NUL branch: `yy_bp = yytext_ptr` without YY_MORE_ADJ (yymore + NUL)",
"C08-3": "cpp-flex.skl yyunput: shift destination `buf_size + 1` - a sentinel ends up inside the data",
"C09-1": "cpp-flex.skl yyinput: yylineno++ evaluated before yyatbol is updated",
"C09-2": "ccl.c cclnegate: ccl_has_nl recomputed from membership before negation",
"C09-3": "cpp-flex.skl yylex line count: M4_YYL_BASE replaced by YY_MORE_ADJ (%array + yymore)",
"C10-1": "parse.y flexrule EOF_OP: `&& !scxclu[i]` - unqualified <<EOF>> skips exclusive conditions",
"C10-2": "same edit as C06-2 (found independently)",
"C10-3": "cpp-flex.skl yylex EOB action: `status = NORMAL` hoisted out of the `== NEW` test",
"C11-1": "cpp-flex.skl yyensure_buffer_stack: `>= max - 1` -> `>= max`",
"C11-2": "cpp-flex.skl yypop_buffer_state: `yy_did_buffer_switch_on_eof = 1` deleted",
"C11-3": "cpp+c99 yy_scan_bytes: copy loop replaced by strncpy",
"C12-1": "cpp-flex.skl C++ ctor_common: `yy_start = 0` dropped (C++ only)",
"C12-2": "cpp-flex.skl yylex_init_extra: dummy_yyguts made static",
"C12-3": "cpp-flex.skl yylex_destroy: calls yytables_destroy under TABLESEXT",
"C13-1": "tblcmp.c mkentry: `baseaddr = tblend + 1` without MAX(.., minec) - negative yy_base",
"C13-2": "cpp-flex.skl YY_DO_BEFORE_ACTION: YYLMAX check loses `+ yy_more_offset` (%array + yymore)",
"C13-3": "cpp-flex.skl yy_init_globals: `yy_start_stack_ptr = 0` dropped",
"C14-1": "cpp-flex.skl yy_get_next_buffer: NULL check after yyrealloc removed",
"C14-2": "cpp-flex.skl yyread: clearerr() removed from the EINTR retry",
"C14-3": "cpp-flex.skl yylex_init_extra: `*ptr == NULL` -> `ptr == NULL`",
"C15-1": "cpp-flex.skl yytbl_fload: `rd.bread = 0` moved out of the search loop",
"C15-2": "cpp-flex.skl yytbl_hdr_read: `th_version = NULL` after yyfree dropped (double free)",
"C15-3": "gen.c gentabs: yyacclist_data stored before YY_TRAILING_MASK is or-ed in",
"C16-1": "scan.l PICKUPDEF: `yyleng < MAXLINE` -> `<=`",
"C16-2": "main.c flex_main wait loop: `!WIFEXITED || ..` -> `WIFEXITED && ..`",
"C16-3": "nfa.c new_rule: MAX_RULE check moved inside the growth block",
"C17-1": "main.c flex_main: `!reject` -> `!real_reject` in the -s warning",
"C17-2": "dfa.c snstods: rule_useful set on every new minimum",
"C17-3": "main.c flex_main: warning loop bound `num_rules - num_eof_rules`",
"C18-1": "tblcmp.c expand_nxt_chk: memset length without `* sizeof(int)`",
"C18-2": "filter.c filter_fix_linedirs: output-file name test uses env.use_stdout",
"C18-3": "tblcmp.c mkentry: nxt store skipped for state[i] == 0",
"C20-1": "scan.l: CHARACTER_CONSTANT removed from the start-condition list of the [[ ]] escape rules",
"C20-2": "scan.l set_input_file: `linenum = 1` dropped",
"C20-3": "misc.c add_action: growth `while` -> `if`",
"C01-4": "parse.y singleton: fullccl: qsort skipped when cclsorted - {-}/{+} results with NUL stay unsorted and lose members (wave 2)",
"C01-5": "dfa.c snstods (REJECT branch): qsort moved behind the copy - accepting sets keep epsilon-closure order (wave 2)",
"C02-4": "tblcmp.c mkentry interior fit: collision test ignores stored jam entries - another state's cell is overwritten (wave 2)",
"C02-5": "cpp-flex.skl yy_get_previous_state: back-up bookkeeping dropped for full tables (wave 2)",
"C02-6": "main.c readin: variable trailing context sets reject only after the -Cf/-CF refusal test (wave 2)",
"C06-4": "parse.y singleton {n}: `varlength = true` replaced by `rulelen += n-1` (wave 2)",
"C11-4": "cpp-flex.skl yypush_buffer_state: save of yy_n_chars into the buffer dropped (wave 2)",
"C13-4": "cpp-flex.skl YY_DO_BEFORE_ACTION (%array, no yymore): `>=` -> `>` - terminator written behind yytext[] (wave 2)",
"C13-5": "cpp-flex.skl yy_switch_to_buffer: REJECT state buffer growth test without YY_STATE_BUF_EXTRA_SPACE (wave 2)",
"C15-4": "cpp-flex.skl yytbl_data_load: short read frees the table but leaves the pointer (double free in yytables_destroy) (wave 2)",
"C17-4": "dfa.c snstods: rule_useful set for every running minimum (wave 2, variant of C17-2)",
"C03-4": "c99-flex.skl yyread: clearerr() dropped from the EINTR retry of the stdio loop (wave 3)",
"C08-4": "cpp-flex.skl yylex EOB CONTINUE_SCAN: `yy_bp = yytext_ptr` without YY_MORE_ADJ (yymore across a refill) (wave 3)",
"C08-5": "c99-flex.skl yyinput: offset computed after `++yy_c_buf_p` (first byte after a refill lost) (wave 3)",
"C08-6": "cpp-flex.skl YY_DO_BEFORE_ACTION (%array + yymore): yy_prev_more_offset saved after yy_more_offset is cleared (wave 3)",
"C09-4": "nfa.c finish_rule: rule after a `|` action copies the previous rule's newline flag (can clear its own) (wave 3)",
"C09-5": "cpp-flex.skl yyinput (scanner with ^ rules): yylineno bump removed (wave 3)",
"C09-6": "cpp-flex.skl section-3 yyless: YY_LESS_LINENO moved behind the terminator write (wave 3)",
"C10-4": "cpp-flex.skl yylex EOF branch: `yy_did_buffer_switch_on_eof = 0` moved behind the YY_NEW_FILE test (wave 3)",
"C10-5": "cpp-flex.skl yy_get_next_buffer: `number_to_move == YY_MORE_ADJ` -> `== 0` (EOF never reported after yymore) (wave 3)",
"C20-4": "filter.c filter_fix_linedirs: output-file test by strncmp prefix (wave 3)",
"C20-5": "misc.c line_directive_out: backslash in the file name no longer escaped (wave 3)",
"C07-4": "dfa.c snstods (REJECT branch): qsort only for nacc > 2 (wave 3)",
"C07-5": "cpp-flex.skl yyreject: hold char restored after yy_cp was moved to yy_full_match (wave 3)",
"C07-6": "main.c readin: `%option reject` override moved behind the -Cf/-CF refusal test (wave 3)",
"C14-4": "cpp-flex.skl yy_get_next_buffer: growth realloc result kept in a temporary, failure absorbed (wave 3)",
"C17-5": "nfa.c finish_rule: `continued_action` -> `pcont_act` in the line-number correction (wave 2)",

}
rows = {}
for l in open('/verif/seeded/RESULTS.tsv'):
    f = l.rstrip('\n').split('\t')
    if len(f) >= 3:
        rows[f[0]] = (f[2], f[3] if len(f) > 3 else '')
print("| seed | change (all compile and pass the 257 tests) | result of `./check <property>` | obligations reported (first ones) |")
print("|---|---|---|---|")
det = 0
for k in sorted(D):
    rc, v = rows.get(k, ('?', ''))
    res = {'1': '**VIOLATION**', '0': 'not detected', '2': 'undecided (exit 2)'}.get(rc, rc)
    if rc == '1':
        det += 1
    vs = ' '.join(x for x in v.split() [:2])
    print("| %s | %s | %s | %s |" % (k, D[k], res, vs.replace('|', '/')))
print()
print("Detected: %d of %d." % (det, len(D)))
